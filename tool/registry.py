"""Property registry: which units / harnesses / twin validations decide each property (DESIGN §3)."""

WORLD_NOTE = "ghost file-system world model (DESIGN §2.4): atomic rename, non-atomic copy/write, durability only after sync_all"
COMMON_TRUST = [
    "Verus 0.2026.09.13 + Z3 (soundness of the verifier and of ghost erasure)",
    "the extractor tool/weave.py and its logged syntactic rules R0-R11 (every edit is listed in coverage.extraction_log)",
    "machine integers are checked exactly (Verus proves absence of overflow); usize is 64-bit",
]

PROPS = {}

PROPS["C17"] = dict(
    level="proof",
    units=[dict(template="units/checksum.rs", slice=["*"])],
    fallback_searches=["RollingChecksum::new", "RollingChecksum::roll", "FastRollingChecksum::roll"],
    clauses={
        "RollingChecksum::new / FastRollingChecksum::new": "ensures r.wf(data@): a == (sum x_i) mod 65521, b == (sum (n-i) x_i) mod 65521, count == n, for exact (unbounded) sums",
        "roll": "forall windows w with old.wf(w), w[0]==old_byte: final.wf(w[1..] ++ [new_byte])",
        "push": "forall w: old.wf(w) ==> final.wf(w ++ [byte])",
        "digest": "forall w: wf(w) ==> result == ((sb(w) % 65521) << 16) | (sa(w) % 65521)  (both types, hence equal to each other and to direct construction)",
        "sum_a/sum_b/len": "components < 65521; len == |w|",
        "no overflow / no panic": "every +, *, cast and debug_assert (rule R2) in the eight functions discharged",
    },
    trusted=COMMON_TRUST,
    assumptions=[
        "FastRollingChecksum windows are at most 2^24 bytes (the property needs 65536); RollingChecksum: any length",
        "'any sequence of operations' is the induction over the per-operation contracts (representation invariant wf); the induction itself is the standard data-structure argument, each step machine-checked",
    ],
    not_decided=[],
)

PATH_TRUST = [
    "std::path model (A): PathBuf/Path identified with an abstract byte view; PathBuf keys obey vstd's BTreeMap key model; PathBuf::clone returns an equal value",
    "slice::sort / sort_unstable / Vec::dedup / Option::copied / Option::map_or: assumed contracts (sorted by Ord, same elements, duplicates removed)",
]

PROPS["C18"] = dict(
    level="proof",
    units=[dict(template="units/reconcile.rs", slice=["*"])],
    fallback_searches=["reconcile"],
    kani=[
        dict(harness="c18_reconcile_path_is_the_table", repo_fn="src/bin/copia/reconcile.rs reconcile_path",
             desc="forall (a,b,base) in (Fingerprint+absent)^3 with symbolic 32-byte digests: reconcile_path == documented table; 6 reachability covers"),
        dict(harness="c18_mirror_symmetric", repo_fn="src/bin/copia/reconcile.rs reconcile_path", desc="reconcile_path(b,a,z) == mirror(reconcile_path(a,b,z))"),
        dict(harness="c18_depends_only_on_equality_pattern", repo_fn="src/bin/copia/reconcile.rs reconcile_path",
             desc="two triples with the same presence bits and the same pairwise (BLAKE3, entry type) equalities get the same action"),
        dict(harness="c18_no_delete_without_base", repo_fn="src/bin/copia/reconcile.rs reconcile_path", desc="base absent ==> never DeleteA/DeleteB"),
    ],
    clauses={
        "reconcile_path": "Kani (complete: loop-free, full symbolic domain incl. arbitrary 32-byte digests) on the real file: == table, mirror symmetry, dependence only on the equality pattern, no delete without base",
        "reconcile": "Verus: output == exactly the non-Noop table decisions for dom(a) ∪ dom(b), each path once, in path order, base forced to None when untrusted",
    },
    trusted=COMMON_TRUST + PATH_TRUST + [
        "Kani 0.68 + CBMC 6.11 (bit-precise, the harness #[path]-includes the unedited reconcile.rs)",
        "R5 shim keys_chain for the iterator expression `a.keys().chain(b.keys()).collect()` (assumed: yields exactly the keys of a and of b)",
        "the Verus caller `reconcile` consumes `reconcile_path`'s contract proved by Kani (cross-back-end modularity; same table text in both)",
    ],
    assumptions=[],
    not_decided=[],
)

PROPS["C19"] = dict(
    level="proof",
    units=[dict(template="units/plan.rs", slice=["*"])],
    fallback_searches=["glob_match", "build_plan", "is_excluded"],
    kani=[dict(harness="c19_needs_transfer_is_quick_check", repo_fn="src/bin/copia/plan.rs needs_transfer",
               desc="forall (src, dst?) over full u64 x i64: needs_transfer == (dst absent || size differs || mtime differs)")],
    twins=[
        dict(name="is_excluded", repo_fn="src/bin/copia/plan.rs is_excluded", quick=3, thorough=60,
             contract="assumed grammar of Path::components()/to_string_lossy()/trim_end_matches/contains (R5 shims of is_excluded): normal components = '/'-separated segments other than '', '.', '..'"),
        dict(name="parse_remote_meta_output", repo_fn="src/bin/copia/meta.rs parse_remote_meta_output", quick=2, thorough=60,
             contract="a listing written as find -printf '%s\\t%T@\\t%p\\0' parses back into the (path, size, whole-second mtime) triples that produced it"),
    ],
    clauses={
        "build_plan": "transfer == sorted, duplicate-free {p in dom src | !excluded(p) && needs(src p, dst.get p)}; skipped + |transfer| == |{p in dom src | !excluded(p)}|; delete == [] unless requested, else sorted duplicate-free {p in dom dst | p not in dom src && !excluded(p)}",
        "glob_match": "result == recursive wildcard semantics gm(pattern, text) for ALL patterns and texts (unbounded), incl. texts containing * and ?",
        "is_excluded": "result == exists pattern: trimmed pattern non-empty && (contains '/' ? gm(pattern, whole path) : some Normal component matches)",
        "needs_transfer": "Verus + Kani (complete) on the real function",
    },
    trusted=COMMON_TRUST + PATH_TRUST + [
        "R5 shims in is_excluded: Path::components()/Component::Normal/OsStr::to_string_lossy/str::trim_end_matches('/')/str::contains('/')/str::is_empty replaced by shims with assumed contracts (validated against real std by the twin run, not proved)",
        "R5 shim syncplan_default for the derived SyncPlan::default()",
    ],
    assumptions=["src map has fewer than usize::MAX entries"],
    not_decided=["parse_remote_meta_output round-trip: no contract within Verus' reach (from_utf8_lossy/splitn/parse); kept as an assumed contract with differential twin validation only (reported under assumed_validated, never counted as an obligation)"],
)

PROPS["C15"] = dict(
    level="proof",
    units=[dict(template="units/plan.rs", slice=["*"], ignore_clauses={"build_plan": [r"plan\.skipped", r"sorted\("]})],
    fallback_searches=["glob_match", "build_plan", "is_excluded"],
    twins=[dict(name="is_excluded", repo_fn="src/bin/copia/plan.rs is_excluded", quick=3, thorough=60,
                contract="assumed std::path component grammar behind the R5 shims of is_excluded")],
    clauses={
        "wildcard semantics": "glob_match == gm (unbounded): '*' any run, '?' exactly one, all else literal even when the text contains '*' or '?'",
        "exclude rule": "is_excluded == slash-free pattern matches any single component / pattern with '/' matches the whole relative path; trailing '/' trimmed; empty pattern ignored",
        "protect": "build_plan: an excluded path is in neither transfer nor delete (both sets are filtered by !excluded)",
        "delete opt-in": "build_plan: !with_delete ==> delete is empty",
    },
    trusted=COMMON_TRUST + PATH_TRUST + ["R5 shims in is_excluded (assumed std::path/str contracts, validated by the twin run)"],
    assumptions=[],
    not_decided=[
                 "'printed actions == performed actions' is a statement about two runs; not decided",
                 "bisync --dry-run: see the world-model unit (added when the bisync units are registered)"],
)

IO_TRUST = [
    "std::io::{Read, Seek, Write} (and tokio's AsyncRead/AsyncSeek/AsyncWrite after async erasure R4) through uninterpreted ghost views r_content/r_pos/stream_of; success of a primitive is promised only under the hypothesis io_ok()",
    "blake3 by contract only: H is a function of the bytes; Hasher::update concatenates; finalize == H(all bytes); blake3::hash(x) == H(x)",
    "derived PartialEq on StrongHash is structural; thiserror's From<io::Error> for CopiaError maps to CopiaError::Io",
    "R7 ghost threading: output.write_all(x) => vio_write_all(&mut output, x, Tracked(sink)) whose body is that very call; Ghost(content) names the basis reader's content",
    "Delta::expected_output_size / bytes_matched / bytes_literal (iterator sums) assumed equal to total_len / cpy / lit of the op list",
]

PROPS["C05"] = dict(
    level="proof",
    units=[dict(template="units/patch.rs", slice=["*"])],
    fallback_searches=["CopiaSync::patch", "AsyncCopiaSync::patch"],
    clauses={
        "CopiaSync::patch / AsyncCopiaSync::patch": "Ok && verify_checksum ==> BLAKE3(bytes written) == delta.checksum, for ANY delta and ANY basis (no precondition on either besides total output < 2^64)",
        "reads inside the basis": "every read_exact is preceded by seek(Start(offset)); read_exact's contract: Ok ==> bytes came from content[offset, offset+len); Delta::validate Ok <=> every copy end (saturated) <= declared basis_size",
        "no panic": "every index, cast, += and debug_assert (rule R2: debug_assert => proof obligation) in patch/validate discharged for arbitrary deltas",
        "Delta::push_*": "whole-view contracts (out/lit/cpy of the entire op list)",
    },
    trusted=COMMON_TRUST + IO_TRUST,
    assumptions=["total declared output length of a delta < 2^64 bytes"],
    not_decided=["tokio file flush semantics behind `copia patch` (the CLI wrapper is checked under C20's cli unit)"],
)

SIG_TRUST = [
    "Signature::generate is UNDER CONTRACT (extracted text; proved: Ok ==> block_size kept and, below 2^32 blocks, sig_of(result, stream); the debug_assert on the block count is an obligation). What stays assumed inside it are two R5 site shims for its adapter chains `data.chunks(bs).enumerate().map(|(i, chunk)| BlockSignature::compute(i as u32, chunk)).collect()` and the rayon `par_chunks` twin of it: std semantics (consecutive bs-byte pieces, numbered from 0, order kept, rayon == sequential), validated by the signature_generate / signature_structure twins on both paths; usize::div_ceil by contract",
    "SignatureTable::{from_signature, is_empty, has_weak_match, find_match} are UNDER CONTRACT (extracted text; representation invariant wf: weak_index[w] lists exactly the indices of the blocks with weak hash w - established by from_signature's loop, consumed by the lookups). What stays assumed: the in-file FxHashMap shim (rustc_hash cannot be linked; standard map semantics of with_capacity_and_hasher / get / contains_key) and two R5 site shims - `m.entry(k).or_default().push(i)` and `c.iter().map(|&i| &blocks[i]).find(|sig| sig.strong_hash == s)` (first candidate in list order whose block carries that strong hash; precondition: every candidate indexes a block) - validated by the signature_table twin",
    "derived Clone of Signature returns an equal value",
    "collision_free() (no two byte strings with the same BLAKE3) is a HYPOTHESIS of the reconstruction / copy-bounds / greedy clauses, never an axiom",
]

SINGLE_TRUST = [
    "ghost file system of the single-file sync unit (units/lib/single_world.rs, ASSUMED): tokio::fs::{try_exists, read, write, rename} by contract over a map path -> bytes (write: on success exactly the given bytes at the path, no other path changes; rename: moves the content); nothing about atomicity or durability",
    "R5 site shims whose body is the replaced expression: cursor_of(&v) for Cursor::new(&v) (a reader over exactly v), vec_eq for Vec<u8> == Vec<u8>, as_path for <P as AsRef<Path>>::as_ref; Path::with_extension without any postcondition",
    "patch_to_vec: `sync.patch(Cursor::new(&basis), &delta, &mut output)` by CopiaSync::patch's PROVED contract with 'bytes written to the sink' read as 'bytes appended to the Vec' (ASSUMED: writing to &mut Vec<u8> appends); the restatement itself is checked against the proved contract by `patch_contract_restated`",
    "Delta::bytes_matched / bytes_literal (filter_map + sum): by contract == cpy / lit of the op list",
]

PROPS["C01"] = dict(
    level="proof",
    units=[dict(template="units/delta.rs", slice=["*", "!RollingChecksum::roll", "!RollingChecksum::push", "!RollingChecksum::sum_*", "!RollingChecksum::len", "!RollingChecksum::is_empty", "!lemma_c17*", "!lemma_g_lit_identical"],
                ignore_clauses={"::delta": [r"g_lit\("]}),
           dict(template="units/singlesync.rs", slice=["AsyncCopiaSync::sync_files", "SyncBuilder::new", "SyncBuilder::block_size", "SyncBuilder::build", "CopiaSync::with_block_size", "patch_contract_restated", "run_sync", "run_sync_local_to_local"])],
    twins=[
        dict(name="signature_structure", repo_fn="src/signature.rs Signature::generate", quick=3, thorough=60,
             contract="Ok ==> one entry per block in order: BlockSignature::compute(j, block j), file_size; both the <=64KiB and the >64KiB (rayon) path, all 8 CLI block sizes (for C01 the VALUE of the weak hash is irrelevant: every producer must agree)"),
        dict(name="signature_table", repo_fn="src/signature.rs SignatureTable", quick=3, thorough=60,
             contract="has_weak_match <=> some block has that weak hash; find_match == first block with that weak hash whose strong hash == BLAKE3(data), else None"),
        dict(name="engines_agree", repo_fn="src/async_sync.rs AsyncCopiaSync", quick=3, thorough=60,
             contract="AsyncCopiaSync::signature == Signature::generate on the same bytes; AsyncCopiaSync::delta == CopiaSync::delta; round trip through both patch engines"),
    ],
    fallback_searches=["roundtrip"],
    clauses={
        "CopiaSync::delta / AsyncCopiaSync::delta": "Ok ==> source_size == |S|, checksum == BLAKE3(S), basis_size == |basis|, cpy + lit == |S|; under collision_free(): every copy inside the basis and out(ops, basis) == S; io_ok ==> Ok",
        "patch (both engines)": "Ok ==> bytes written == out(ops, content(basis)); io_ok && well-formed && checksum matches ==> Ok",
        "lemma_c01_roundtrip": "delta's postcondition establishes patch's success antecedent; patch's output clause gives exactly the source",
        "Signature::generate": "Verus, on the extracted text: Ok ==> block_size == the argument and (stream < 0xFFFF_FFFF * block_size bytes ==> sig_of(result, stream)): empty stream -> no blocks; otherwise one entry per block with index j, exact weak digest and BLAKE3 of block j, file_size == |stream|; the function's own debug_assert (block count == ceil(n / bs)) discharged; io_ok ==> Ok",
        "SignatureTable::from_signature / find_match / has_weak_match / is_empty": "Verus, on the extracted text: from_signature establishes wf (every bucket entry indexes a block with that weak hash, no empty bucket, every block listed); find_match: Some ==> a block with that weak hash whose strong hash == BLAKE3(data), None ==> no such block; has_weak_match <==> some block has that weak hash",
        "CopiaSync::signature": "== Signature::generate's contract (sig_of below 2^32 blocks)",
        "lemma_sig_unique": "sig_of determines the signature: engine / sequential vs parallel path independence follows from every producer satisfying sig_of",
        "AsyncCopiaSync::sync_files (single-file `sync`)": "under collision_free() and idx_domain (every file < 2 TiB: the u32 block index): Ok ==> the destination path holds exactly the bytes the source path held at entry (all three branches: destination absent, identical, delta + patch + temp + rename), source_size is the source's length and bytes_matched + bytes_literal == source_size; every callee precondition (valid block size for CopiaSync::with_block_size's assert!, delta's window bound, patch's length bound) established for arbitrary file contents",
        "run_sync / run_sync_local_to_local (`copia sync SRC DST`, one file)": "for ANY --block-size value the engine's assert! is unreachable (validate_block_size precedes it: an invalid size is a reported error); two local files: Ok ==> DST holds exactly the bytes SRC held (sync_files's contract carried to the command)",
        "SyncBuilder::{new, block_size, build}, CopiaSync::with_block_size": "the engine sync_files builds has the requested block size and checksum verification on; block_size's assert! is a caller obligation",
    },
    trusted=COMMON_TRUST + IO_TRUST + SIG_TRUST + SINGLE_TRUST,
    assumptions=["block size <= 2^24 and basis < 2^48 bytes (library-level domain restriction; the CLI allows 512..65536)", "block index < 2^32"],
    not_decided=[
                 "CLI file chain (bincode files): validated by the cli_chain twin only; the two remote directions of the single-file command (run_sync_local_to_remote / run_sync_remote_to_local: one ssh child each) are outside C01's statement and by name only",
                 "engine-independence of the DELTA value: both engines satisfy the same contract (same greedy literal count and same reconstruction); equality of the op lists themselves is checked by the engines_agree twin only"],
)

PROPS["C16"] = dict(
    level="proof",
    units=[dict(template="units/delta.rs", slice=["*"])],
    twins=[
        dict(name="signature_generate", repo_fn="src/signature.rs Signature::generate", quick=3, thorough=60,
             contract="weak hashes in a generated signature are the exact digests of the blocks (all block sizes, both paths)"),
        dict(name="signature_table", repo_fn="src/signature.rs SignatureTable", quick=3, thorough=60,
             contract="has_weak_match / find_match as assumed by the delta proof"),
    ],
    fallback_searches=["greedy"],
    clauses={
        "delta (both engines)": "under collision_free(): lit(ops) == g_lit(S, basis, bs, 0) — exactly the literal bytes of the textbook greedy scan (hence 'no more')",
        "why it needs C17": "window == full basis block j ==> signature weak hash (RollingChecksum::new, exact) == rolling digest (FastRollingChecksum, lazy mod, after any number of slides) ==> has_weak_match ==> find_match confirms",
        "lemma_g_lit_identical": "g_lit(b, b, bs, 0) < bs: an identical file costs less than one block of literals",
    },
    trusted=COMMON_TRUST + IO_TRUST + SIG_TRUST,
    assumptions=["block size <= 2^24, basis < 2^48 bytes"],
    not_decided=["the k-edit corollary (k + 2 blocks) is not mechanised"],
)

CLI_TRUST = [
    "R11: Box<dyn std::error::Error> => opaque error type (error payloads are never inspected by a contract)",
    "tokio::fs::{File::open, File::create, read, write}, tokio::io::BufReader, bincode::{serialize, deserialize} by contract only (shim modules); a file's bytes are an uninterpreted function of its path at call time",
    "R5 shims: default_output for `output.unwrap_or_else(|| {..set_extension..})`, in_cli_range for `(512..=65536).contains(&x)`, read_at for `reader.read(&mut buffer[n..])`, u32_try_from_len, *_le_bytes",
    "usize::is_power_of_two == is_pow2 (assumed); byte-string literal *b\"COPA\" == [0x43,0x4F,0x50,0x41] (assumed in Verus, checked bit-precisely by the Kani harness c20_encode_layout on the compiled crate)",
    "a Delta held in memory has a total declared length below 2^64 bytes (it would need more than 2^32 operations)",
]

PROPS["C20"] = dict(
    level="proof",
    units=[dict(template="units/protocol.rs", slice=["*"]),
           dict(template="units/cli.rs", slice=["run_signature", "run_delta", "run_patch", "validate_block_size", "AsyncCopiaSync::with_block_size", "SyncConfig::default"])],
    kani=[dict(harness="c20_encode_layout", repo_fn="src/protocol.rs FrameHeader::{new,encode}",
               desc="forall message type, forall payload length (full u32): encode(new(..)) begins with COPA, bytes 4..8 == LE(length), byte 8 == type code, byte 9 == 1, flags 0 — on the compiled library")],
    twins=[dict(name="cli_chain", repo_fn="src/bin/copia/main.rs run_signature/run_delta/run_patch", quick=1, thorough=1, needs_cli=True,
                contract="the real `copia` binary: signature -> delta -> patch through files reproduces the source; every single-field corruption of the .sig/.delta file ends in a reported error (never a crash), and exit 0 only with bytes matching the checksum; plus byte-level corruption (C20: absurd counts and lengths): an 8-byte field at every 5th of the first 400 offsets of a valid .sig / .delta overwritten with 2^40, 2^60, 2^64-1 and read by the CLI under a 1 GiB address-space limit - a reported error, never a signal or a panic")],
    fallback_searches=["codec", "cli"],
    clauses={
        "MessageType::from_u8": "Ok <=> 1..=7, and the decoded variant has that code",
        "FrameHeader::validate": "Ok <=> magic == COPA && version == 1 && length <= 16 MiB",
        "FrameHeader::encode": "layout: magic, LE(length), type code, version, LE(flags); begins with COPA",
        "FrameHeader::decode": "Ok <=> magic && version == 1 && type in 1..=7 && length <= 16 MiB; Ok ==> fields == the layout's; total (no panic)",
        "lemma_hdr_roundtrip / lemma_hdr_decodable": "decode(encode(h)) == Ok(h) for every valid header, as a consequence of the two contracts",
        "Codec::write_message": "wire bytes == enc_hdr(h) ++ payload with h valid, h.length == |payload| <= 16 MiB, h.msg_type == the message's type",
        "Codec::read_message": "the buffer is resized only to a validated header length: <= 16 MiB",
        "CLI": "run_signature/run_delta/run_patch: every callee precondition established for ARBITRARY file contents — in particular with_block_size's assert! (valid block size) and delta's block-size bound; i.e. no panic reachable from a hostile .sig/.delta",
    },
    trusted=COMMON_TRUST + IO_TRUST + CLI_TRUST,
    assumptions=["signature input file shorter than 2 TiB (block index < 2^32)"],
    not_decided=["bincode/serde value codecs (Message, Signature, Delta round trip and their allocation behaviour on hostile input): assumed; only exercised by the cli_chain twin",
                 "hangs (non-termination) of the CLI on hostile files: termination of the delta loop is proved (decreases), the async runtime is not modelled"],
)
PROPS["C05"]["units"].append(dict(template="units/cli.rs", slice=["run_patch", "AsyncCopiaSync::with_block_size", "validate_block_size"]))
PROPS["C05"]["twins"] = [dict(name="cli_chain", repo_fn="src/bin/copia/main.rs run_patch", quick=1, thorough=1, needs_cli=True,
                              contract="`copia patch` on corrupted delta files: exit 0 only if BLAKE3(output FILE) == the delta's checksum; otherwise a reported error, never a crash")]
PROPS["C05"]["clauses"]["run_patch (CLI)"] = "Ok ==> BLAKE3(bytes written to the output file) == checksum of the deserialised delta; every callee precondition established for arbitrary file contents"
PROPS["C05"]["trusted"] = COMMON_TRUST + IO_TRUST + CLI_TRUST
PROPS["C05"]["fallback_searches"].append("cli_run_patch")
PROPS["C01"]["twins"].append(dict(name="cli_chain", repo_fn="src/bin/copia/main.rs", quick=1, thorough=1, needs_cli=True,
                                  contract="signature -> delta -> patch chained through their files with the real binary reproduces the source (also for an empty basis, an empty source, one-byte files, exact block multiples); `copia sync SRC DST` leaves DST byte-identical to SRC for 10 shapes x 2 block sizes (destination absent, blocks swapped / repeated / reversed with no new bytes and equal length, one byte changed, a block removed, an insert, empty source, empty destination, identical)"))

WORLD_TRUST = [
    "ghost file-system world (units/lib/world_model.rs, ASSUMED): rename is atomic and must be looked at to learn its result; copy / create+write are NON-atomic and allowed only onto reserved staging names (*.copia-tmp, *.tmp); bytes are durable only after sync_all; a staging file may be renamed into place only after it was flushed; sync_all changes no bytes",
    "std::path algebra (ASSUMED): a path is its byte string, join = concatenation with '/', OsString::push appends, PathBuf keys of a BTreeMap are identified with their byte view",
    "serde_json by contract: from_slice is a total parser (parse_archive), to_vec_pretty is inverted by it",
    "discover_local_fingerprints (directory walk + streaming BLAKE3) by contract: reports fp_of(bytes) for every file of the tree, absence otherwise, and changes nothing",
    "reconcile's contract is PROVED in unit `reconcile` and restated over byte views of the keys (same table text, lib/table_spec.rs); root_pair_hash / archive_path / host_id / short_hex by contract",
    "R5 shims: base_of (map_or_else + clone), arc_or_fresh (unwrap_or_else + fresh), count_conflicts (diagnostics), string_eq_str, hash_ge/gt/le/lt for [u8;32] comparison (lexicographic), vfmt_conflict for the conflict-copy suffix format! (R3')",
    "R11: Box<dyn Error> => opaque VErr",
]
BISYNC_UNIT = dict(template="units/bisync.rs", slice=["*"])
BISYNC_TWIN = dict(name="bisync_histories", repo_fn="src/bin/copia/bidir.rs run_bisync", quick=1, thorough=90, needs_cli=True,
                   contract="37 hand-built histories over {write, delete, bisync, dry-run, archive faults (removed, truncated, garbage, other / zero / maximal version, only .bak), a delete propagated and the old bytes re-created, losers whose digest starts with zero nibbles, a 250-byte name whose staging name cannot be created, a directory replaced by a file, equal sizes with equal old mtimes, edited/deleted conflict copies, one mtime for every file, leftover staging files} on the real binary, plus an strace pass (open-for-write only on *.copia-tmp, fsync before rename); thorough: plus random histories over the same alphabet for 90 s. Clauses per run: no version lost (C02), converge + record == tree + idempotent (C06), no removal after an archive fault (C07), no foreign bytes at a live path (C08), dry run changes nothing (C15)")

def _bisync(clauses, ignore=None, not_decided=(), only_re=None):
    u = dict(BISYNC_UNIT)
    if ignore:
        u["ignore_clauses"] = ignore
    return dict(level="proof", units=[u], twins=[dict(BISYNC_TWIN, only_re=only_re)], fallback_searches=["bisync"], fallback_only_re=only_re, clauses=clauses,
                trusted=COMMON_TRUST + WORLD_TRUST, assumptions=["roots do not overlap; the archive file lives outside both trees; the archive epoch is below u64::MAX; names ending in .copia-tmp are reserved"],
                not_decided=list(not_decided))

PROPS["C07"] = _bisync({
    "Archive::load": "Some(a) ==> the file AT THE GIVEN PATH exists, parses to a, a.format_version == 1 and a.root_pair_hash == the expected pair (nothing else is ever trusted: no .bak, no other pair, no other version)",
    "run_bisync": "no trusted archive for this pair at the archive path ==> no Unlink effect at all (the plan is computed with every base forced to None, table(a,b,None) is never a delete, apply unlinks only on Delete*)",
    "apply": "an Unlink effect happens only for DeleteA/DeleteB and only on the path that action names",
}, ignore={"run_bisync": [r"record_ok", r"conflict_names_free", r"conflict_name_not_planned"], "copy_atomic": [r"synced", r"is_staging\(asp\(from\)\)"]},
   only_re=r"\(C07\)", not_decided=["injectivity of root_pair_hash (two different pairs never share an identifier) is assumed (hash by contract); validated only by the history twin"])
PROPS["C07"]["units"].append(dict(template="units/pairid.rs", slice=["*"]))
PROPS["C07"]["clauses"]["root_pair_hash"] = "result == hex(BLAKE3(canon(a) ++ NUL ++ canon(b))); lemma_pair_id_injective: under collision_free() and 'canonical paths contain no NUL', equal identifiers imply equal canonical roots in the same order"
PROPS["C07"]["not_decided"] = ["std::fs::canonicalize and hex encoding are by contract (R5 shims canon_bytes, hex_string); serde_json totality assumed"]
PROPS["C08"] = _bisync({
    "copy_atomic": "whatever happens (success, error, a cut between any two steps) no non-staging path other than dst changes; dst changes only by the rename of a staging file that was FLUSHED first (vfs_rename's precondition); non-atomic writes only on *.copia-tmp (vfs_copy's precondition)",
    "Archive::save": "the record is written to <path>.tmp, flushed, then renamed; on any error the live record holds the old bytes, is absent, or is the complete new record",
    "run_bisync": "once the archive has been renamed into place no further rename into either tree happens; apply's renames all land inside the trees; an error in any apply returns before the archive is touched",
}, ignore={"run_bisync": [r"record_ok", r"conflict_names_free", r"conflict_name_not_planned"]},
   only_re=r"\(C08[):]|crashed", not_decided=["'running bisync again after the crash converges' is a statement about a second run; not decided (history-level)"])
PROPS["C08"]["twins"].append(dict(name="bisync_crashes", repo_fn="src/bin/copia/bidir.rs run_bisync (crash points)", quick=3, thorough=120, needs_cli=True,
    contract="`copia bisync` on the real binary killed right before EVERY one of its file-system write calls (ptrace supervisor), two setups (after a first sync: create, propagate both ways, delete, both-changed conflict, delete-vs-modify, nested path; and a first run without archive): every live path holds a complete version that existed before the run, the archive on disk is the old one, absent, or a complete new one whose every entry is in place on both sides; running bisync again (up to 3 times) yields the trees of an uninterrupted run",
    bounded="the two-run clause of C08 ('running bisync again after the crash converges to the uninterrupted result') has no contract (it is a statement about a second process run); this enumeration stands in. Bound: 2 setups (9 + 5 paths, all seven action kinds), every kill point (56 + 44 on the pinned tree; quick: every point up to 30 then every 2nd), process kill (not power loss)"))
PROPS["C08"]["fallback_searches"] = ["bisync", "bisync_crash"]
PROPS["C02"] = _bisync({
    "apply": "per action, under 'the scan is still accurate at this path': propagate puts the source bytes on the other side and keeps them on the source side; delete-vs-modify restores the survivor; a divergent edit leaves the greater-BLAKE3 version at the path on both sides and the other version at the conflict-copy name on both sides; nothing outside the action's own paths changes (frame)",
    "run_bisync (H7 side condition)": "at every apply call the conflict-copy names about to be written are free or already hold the very bytes being preserved",
    "run_bisync (H6)": "the record names only paths present on a side or conflict-copy names, so a stale base entry can never turn a re-created file into a delete",
}, ignore={"copy_atomic": [r"synced", r"is_staging\(asp\(from\)\)"]}, only_re=r"\(C02\)|crashed", not_decided=["the multi-run statement (induction over runs) and 'the scan is still accurate when each action runs' (distinctness of plan paths) are argued in DESIGN.md, not mechanised"])
PROPS["C06"] = _bisync({
    "apply": "what is recorded for a path is the fingerprint of the version now on both sides (exact value per action), nothing else in the record changes; winner = greater BLAKE3 (lexicographic), loser at <path>.conflict-<host>-<hex12>",
    "run_bisync": "the new record names only paths that exist on a side at the start of the run or conflict-copy names (no stale entries)",
    "mtime independence": "no function under contract reads an mtime (the scan's contract is a function of file bytes only)",
}, ignore={"run_bisync": [r"conflict_names_free", r"conflict_name_not_planned"], "copy_atomic": [r"synced", r"is_staging\(asp\(from\)\)"]},
   only_re=r"\(C06\)", not_decided=["post-run A == B == archive.entries as one whole-tree equality (cross-path frame, L2) is not mechanised; it is exercised by the history twin only", "A/B symmetry lemma not mechanised"])
PROPS["C15"]["units"].append(dict(template="units/bisync.rs", slice=["run_bisync"], ignore_clauses={"run_bisync": [r"record_ok", r"conflict_names_free", r"conflict_name_not_planned"]}))
PROPS["C15"]["twins"].append(dict(name="dry_run_inert", repo_fn="src/bin/copia/incremental.rs run_local / run_remote with --dry-run", quick=1, thorough=1, needs_cli=True,
    bounded="'the printed actions are exactly the performed ones' is a statement about the program's OUTPUT, which no contract here models (print macros are dropped, rule R3): this run stands in for that clause (that a dry run CHANGES nothing is proved: unit runsync). Bound: ONE tree (17 awkward names x 4 destination states, 14 sibling names, 4 stale files), 5 flag sets, 3 directions = 15 real runs with --dry-run",
    contract="`copia sync -r --dry-run` (local, pull, push through an ssh stand-in): no file, mtime or directory of either tree changes, nothing in the working directory changes, and stdout names - one per line - exactly the paths a real run from that state sends or deletes (the plan as the property defines it), and no other path of either tree"))
PROPS["C15"]["fallback_searches"].append("dry_run")
PROPS["C15"]["clauses"]["bisync --dry-run"] = "run_bisync: opts.dry_run ==> the world (files and effect log) is unchanged"
PROPS["C15"]["trusted"] = COMMON_TRUST + PATH_TRUST + WORLD_TRUST

SERVE_TWIN = dict(name="serve_sessions", repo_fn="src/bin/copia/serve.rs", quick=1, thorough=60, needs_cli=True,
                  contract="24 deterministic sessions (one of them: EVERY two-request history on one path over {absent, X, Y} x {Put, Delete} x expected in {None, h(X), h(Y)} x content in {X, Y}, each request to its own server process; others: a same-length same-second commit by another server, refused paths of 600 KB, a Put under a file, Get of every listed path incl. a symlink inside the tree) against one to three real `copia serve` processes on one root (interleavings forced by withholding content, holding the commit flock, or strace delay injection): refused Puts keep the stream in step, no path escapes, short content + EOF terminates, bad prologue touches nothing, oversize frame rejected, exactly one of two racing CAS Puts commits, committed means live, overlapping Puts never publish mixed bytes, Delete during Put loses nothing, leftover staging is not published, hash mismatch changes nothing, Get announces what it streams, hostile CBOR (huge declared lengths, deep nesting) under a 512 MiB limit neither kills nor hangs the server, one file under two spellings (doc, ./doc) is still one compare-and-swap, request paths that spell the root itself never put anything outside it, long non-ASCII names are answered; thorough: plus random sequential programs against the compare-and-swap semantics and CONCURRENT random programs (barrier rounds, one server with flock delayed) through a linearizability check")
SERVE_TRUST = COMMON_TRUST + [
    "Kani 0.68 + CBMC 6.11 for cas_decide (complete, loop-free, arbitrary 32-byte hashes) on the unedited wire.rs",
    "fs2 flock gives mutual exclusion across server processes; the standard argument 'atomic sections under one lock + CAS at lock acquisition ==> linearizable' is stated, not mechanised",
]
SERVE_TRUST += [
    "ghost hub world (units/lib/serve_world.rs, ASSUMED): files + confinement root + commit lock + process-private names + verified-staging map. rename is atomic; create/write are NON-atomic and allowed only on a process-private staging name; rename/unlink of a live path require the commit lock; a rename source must be private, flushed and hash-verified (mark_verified is provable only if H(bytes) == the declared hash); taking the lock havocs every non-private file (the other processes ran); current_hash describes the file only under the lock; a descriptor keeps seeing the version it was opened on",
    "std::path component grammar (ASSUMED, validated by the session twin): comps_of / bad_comp / is_abs / rel_ok; join = concatenation; private_name(<dst> + '.' + pid + '.' + seq + '.copia-tmp') because pid is unique among live processes and seq is a per-process counter",
    "ciborium by contract: cbor_parse is a total function of the frame bytes (cbor_from / cbor_into shims); bytes_to_hash, short_hash, meta::fingerprint_path, list_fingerprints by contract",
    "R6: with_commit_lock is inlined (β-reduction of the closure argument, side condition: no `?`/return inside the closure) from its current body on every run; R4: none (serve is synchronous); R11: Box<dyn Error> => opaque VErr",
    "DOMAIN ASSUMPTION: a decoded request never names a reserved staging path (in_domain, the properties' own exclusion of 'reserved staging names')",
    "MAX_FRAME == 2^20 is read from wire.rs by //@item (the const text is the repository's); the byte-string constant MAGIC (b\"COPIA1\", 6 bytes) is opaque to Verus: `&m == MAGIC` goes through the R5 shim magic_eq",
]
def _serve(pid, clauses, only_re, not_decided, slice_, ignore=None):
    u = dict(template="units/serve.rs", slice=slice_)
    if ignore:
        u["ignore_clauses"] = ignore
    return dict(level="proof", units=[u], kani=[dict(harness="c03_cas_decide_is_equality", repo_fn="src/bin/copia/wire.rs cas_decide",
                                                      desc="cas_decide(current, expected) == Commit <=> current == expected (None = absent), arbitrary hashes")] if pid == "C03" else [],
                twins=[dict(SERVE_TWIN, only_re=only_re)], fallback_searches=["serve"], fallback_only_re=only_re, clauses=clauses,
                trusted=SERVE_TRUST, assumptions=["served tree without symlinks leading outside", "request paths are not reserved staging names (*.copia-tmp)"], not_decided=not_decided)
_NOT_C03 = [r"safe_join_none\(pv\(root\), path@\) ==>", r"^\s*inside\(", r"stream_of"]
_NOT_C10 = [r"safe_join_none\(pv\(root\), path@\) ==>", r"^\s*inside\(", r"stream_of", r"hv\(expected\) == cur_of", r"final\(fs\)\.files == l\.files"]
_NOT_C11 = [r"cur_of", r"verified", r"synced", r"stream_of\(&\*final\(r\)\) ==", r"H\("]
_NOT_C12 = [r"cur_of", r"verified", r"synced", r"\.lock\b", r"private"]
PROPS["C03"] = _serve("C03", {
    "cas_decide": "Commit <=> current == expected (Verus on the extracted text AND Kani on the unedited file, complete)",
    "handle_put": "Ok and path accepted ==> either no live path changed, or there is the state L seen on acquiring the commit lock with: expected != hash-of-live(L) ==> the live file is exactly L's (stale CAS never touches it); any new live content has the declared hash. Every rename/unlink of a live path happens while this process holds the lock (vfs_rename / vfs_remove_file preconditions); the comparison reads the live hash under the lock (current_hash contract)",
    "handle_delete": "Ok ==> exists the locked state L with: expected == hash-of-live(L) ==> files == L minus the path (or L if unlink failed); otherwise files == L",
    "tmp_of": "the staging name is process-private (pid + per-process sequence) and ends in .copia-tmp",
}, r"\(C03", ["interleavings themselves are not explored by a verifier: the proof is per-process (each critical section is one atomic CAS against the locked state, everything outside the lock touches only private names); the step from that to linearizability is the standard lock argument, stated in DESIGN.md, not mechanised; the session twin forces the named schedules only",
               "conflict-copy retrievability across later requests (a second stale Put with the same content hash reuses the conflict name: same bytes) is argued, not mechanised"],
    ["cas_decide", "tmp_of", "handle_put", "handle_delete"], {"handle_put": _NOT_C03, "handle_delete": _NOT_C03})
PROPS["C10"] = _serve("C10", {
    "handle_put": "non-atomic create/write only ever target the process-private staging name (vfs::File::create / write_all preconditions); the only way bytes reach a non-staging path is vfs_rename, whose precondition demands a private, FLUSHED, HASH-VERIFIED source (mark_verified is provable only when H(bytes) == declared hash); a hash mismatch or short content leaves every live path unchanged (live_same)",
    "handle_get": "the Meta reply announces len == |bytes| and blake3 == H(bytes) of ONE opened version, and exactly those bytes are streamed (single descriptor, H11 fix)",
    "tmp_of": "staging names are private to (process, request): no two writers share one",
}, r"\(C10", ["kill points: the crash argument is 'every prefix of the effect log keeps the invariant' - effects on live paths are renames only (atomic); this is implied by the preconditions but the prefix quantifier itself is not a Verus obligation", "kernel-level durability"],
    ["tmp_of", "handle_put", "handle_get"], {"handle_put": _NOT_C10})
PROPS["C10"]["twins"].append(dict(name="serve_crashes", repo_fn="src/bin/copia/serve.rs handle_put/handle_delete (kill points)", quick=3, thorough=120, needs_cli=True, only_re=r"\(C10|\(C03",
    contract="one real `copia serve` fed a whole session from a file and killed right before EVERY one of its file-system write calls (ptrace supervisor), four sessions (multi-chunk Put committing over an existing file, Put creating a nested path, stale Put landing a conflict copy, Delete then Put): every hub path other than staging names holds what the hub had or the complete verified content of the one write in flight; a reply already sent is true of the tree; a fresh server serves exactly the tree and accepts a correct CAS Put",
    bounded="C10's crash quantifier ('if any of them is killed at any point') is decided deductively only as 'every effect on a live path is an atomic rename of a verified staging file' (preconditions of the world primitives); the statement over ALL kill points of a run is a statement about log prefixes that is not a Verus obligation. Bound: 4 sessions, every kill point (11 + 10 + 8 + 10 on the pinned tree), single server, process kill (not power loss)"))
PROPS["C10"]["fallback_searches"] = ["serve", "serve_crash"]
PROPS["C11"] = _serve("C11", {
    "safe_join": "None <=> the path is absolute or has a .., root or prefix component; Some(p) ==> p == root.join(rel) and inside(root, p)",
    "handle_put / handle_delete / handle_get": "every path handed to any file-system primitive is inside(root, .) (precondition of every vfs_* shim); a refused path leaves files and effect log unchanged; a refused Put drains min(len, available) content bytes",
    "serve": "lockdir == root/.copia is inside root; the handlers' preconditions are established for every decoded request",
}, r"\(C11", ["std::path parsing itself (assumed component grammar, validated by the twin)", "symlinks (assumed absent by the property)"],
    ["safe_join", "tmp_of", "handle_put", "handle_delete", "handle_get", "serve"], {"handle_put": _NOT_C11, "handle_delete": _NOT_C11, "handle_get": _NOT_C11})
PROPS["C12"] = _serve("C12", {
    "read_magic": "Ok(true) <=> the first 6 bytes are the magic COPIA1; consumes exactly those six",
    "read_frame": "never allocates before checking len <= MAX_FRAME (2^20): the buffer passed to read_exact has length len <= 2^20; clean EOF at a frame boundary => Ok(None); consumes exactly 4 + len bytes on success",
    "write_frame": "emits BE32(len) ++ cbor(msg), rejects len > MAX_FRAME",
    "serve": "no panic/overflow/out-of-bounds (every callee precondition holds for arbitrary input); with a bad prologue or before the first well-formed frame, files are unchanged and the effect log holds at most the two start-up Mkdirs; terminates on EOF (loop exits when read_frame returns None/Err)",
    "handle_put": "refused Put drains its content so the stream stays in step",
}, r"\(C12|\(C11/C12", ["ciborium internals (allocation on hostile CBOR inside a <= 1 MiB frame) - by contract; behaviour under a real rlimit is exercised by the twin only", "'later valid requests get the same replies as in a fresh session' is a two-run statement: decided only as 'the stream position after an error reply is the frame boundary' (handle_put drain clause + read_frame consumption)"],
    ["read_magic", "read_frame", "write_frame", "serve", "handle_put"], {"handle_put": _NOT_C12})


# ---- C09: one-way delivery under a kill ----
ONEWAY_TRUST = COMMON_TRUST + [
    "ghost one-way world (units/lib/oneway_world.rs, ASSUMED): a kill keeps what was written (process kill, not power loss); copy / create / streaming are NON-atomic and allowed only onto *.copia-tmp; rename is atomic and demands a WHOLE source (filled by a successful copy or by a remote cat that reported success); every effect is logged in order - kill points are the prefixes of the log",
    "dir_sync::transfer_file_from_remote BY CONTRACT (tokio process + async pipes): writes only its local_path argument, Ok only if ssh/cat reported success; validated on the real binary by the crash oracle (pull: every kill point; a remote end that fails mid-stream)",
    "meta::set_local_mtime is under contract in unit oneway (time arithmetic behind R5 shims; std::fs::File::set_modified by contract: changes no byte)",
    "R4: async fn => fn, `.await` erased (tokio::fs::copy / rename are the std calls run on a blocking thread); R11: Box<dyn Error> => VErr; R3: format! diagnostics => vfmt()",
    "std::path algebra (ASSUMED): a path is its byte string; OsString::push appends",
]
PROPS["C09"] = dict(
    level="proof",
    units=[dict(template="units/oneway.rs", slice=["*"], ignore_clauses={"deliver_local": [r"\.mtime == clamp0"], "deliver_pull": [r"\.mtime == clamp0"]})],
    twins=[dict(name="oneway_crashes", repo_fn="src/bin/copia/transfer.rs transfer_file_to_remote (push) + incremental.rs run_local/run_remote", quick=3, thorough=120, needs_cli=True,
                contract="`copia sync -r` in all three directions on the real binary, killed right before EVERY one of its file-system / pipe write calls (ptrace supervisor; the ssh stand-in keeps running after its sender died): live destination paths hold complete old or complete new bytes, files outside the plan are unchanged, the re-run exits 0 and equals an uninterrupted run; plus a remote end that fails mid-stream",
                bounded="PUSH is decided only here: the deciding step is the remote shell command `cat > tmp && [ size ] && mv`, which is not Rust code and has no contract. Bound: ONE tree (5 files, 0 B .. 700 000 B = 3 transfer chunks, one pre-existing older version, one unrelated file), -j 1, every kill point of that run (quick: every point up to 40 then every 3rd; thorough: all, and again with --delete), plus a push whose delete list (1500 stale files) is longer than a pipe buffer, every kill point; remote = local sh through an ssh stand-in")],
    fallback_searches=["oneway"],
    clauses={
        "tmp_path": "result == dst ++ '.copia-tmp': a reserved staging name, different from dst",
        "deliver_local": "for every outcome (Ok, Err, and by the effect-log clause every kill point): the only effects are non-atomic writes on dst.copia-tmp, ONE rename dst.copia-tmp -> dst, a touch of dst; dst afterwards holds its old bytes or exactly the source's bytes; no other path changes; Ok ==> dst == source. The rename's precondition (WHOLE staging file) holds only after vfs_copy returned Ok",
        "deliver_pull": "the same with the complete remote file as the only new content; the rename happens only after transfer_file_from_remote returned Ok (its contract: Ok only if the remote cat reported success)",
        "create_local_dirs": "changes no file",
        "push (bounded)": "decided by the crash oracle on the real binary only",
    },
    trusted=ONEWAY_TRUST,
    assumptions=["process kill, not power loss (no fsync is demanded)", "source files do not change during the run", "destination names ending in .copia-tmp are reserved"],
    not_decided=["inside the orchestration region of run_local / run_remote (tokio::spawn, Semaphore, join_handles) nothing is proved: it is summarised by an assumed contract built from the per-delivery contracts; around it, 'files outside the plan are unchanged' is proved for the whole run (unit runsync)",
                 "push: no contract can state what the remote shell does; bounded fault enumeration stands in (H13 was found and fixed there)",
                 "'running the same command again yields the uninterrupted result' is a two-run statement: crash oracle only"],
)


# ---- C13: hub-sync, the client side of one run ----
PROPS["C13"] = dict(
    level="proof",
    units=[dict(template="units/hub.rs", slice=["*"]), dict(template="units/hubclient.rs", slice=["*"])],
    twins=[dict(name="hub_sync_runs", repo_fn="src/bin/copia/hub.rs hub_sync + HubClient", quick=1, thorough=1, needs_cli=True,
                contract="`copia hub-sync` on the real binary: a local tree lands on a quiet hub (identical bytes, other hub paths untouched, the file the hub already had is skipped, no conflict copy), an immediate second run sends nothing and changes nothing; with client A delayed (strace) between its List and its Put while client B commits the same paths, B's content is not overwritten, A's files are kept as conflict copies and A exits non-zero; `host:root` targets through an ssh stand-in land in ROOT (also when ROOT contains a colon) and nowhere else")],
    fallback_searches=["hub_sync"],
    clauses={
        "hub_sync": "the run's request log (ghost): first the List; afterwards ONLY Puts (then Bye), each for a local file whose listed hash differs from its own, carrying exactly that listed hash as `expected` (None if unlisted), the local fingerprint as content hash and the file root/rel as content; a file whose listed hash equals the local one is not sent; never a Delete; Ok ==> every local file the listing did not already match was Put and the hub answered committed:true; any conflict ==> Err",
        "HubClient::{send, recv, put} (wire level, unit hubclient)": "put writes exactly one Put frame - path == rel, the caller's expected and hash, len == the length of the file - followed by exactly the file's bytes (so the hub's stream stays in step), and returns the `committed` flag of the reply it read; send appends one frame; recv writes nothing",
        "consequences (stated, not mechanised)": "with the hub's compare-and-swap (C03: committed only if the live hash equals `expected`) nothing another client committed after this run's List is overwritten, and a non-committed file is kept as a conflict copy; with truthful commits (C03/C10) an immediate second run lists the local hashes and sends nothing",
    },
    trusted=COMMON_TRUST + [
        "the abstract request log used by hub_sync's contract: HubClient::{connect, list, put, bye} are BY CONTRACT at that level (each appends the request it is named after). What `put` really writes is proved separately at the level of wire bytes in unit hubclient; that the log entry Put{..} STANDS FOR those bytes is the link left to the reader (and to the run twin on the real binary). connect (process spawning, handshake) and bye are not verified",
        "unit hubclient: write_frame / read_frame by contract (their bodies are proved against the same clauses in unit serve); local file access by contract (file_len, copy_file_into: the file does not change during the run)",
        "meta::discover_local_fingerprints by contract (a function of the local tree); R5 shims to_lossy_string (rel.to_string_lossy().into_owned()) and listed_hash (hub.get(&rel_s).map(|f| f.blake3)); R9/R10 on the loop; R11 Box<dyn Error> => VErr",
        "BTreeMap<PathBuf,_> key model as in unit plan",
    ],
    assumptions=["fewer than 2^64 local files", "the local tree does not change during the run"],
    not_decided=["sequences of runs by several clients: one run's contract plus the hub-side properties (C03, C10) give the statement by induction on runs - a paper argument; the stale-listing interleaving is exercised once, forced, by the twin",
                 "HubClient::connect / bye and split_target (host:root parsing) are not under contract",
                 "`host:root` targets are exercised by the run twin through an ssh stand-in (incl. roots containing a colon); split_target itself is not under contract"],
)


# ---- C14: an unchanged tree is never re-sent (the per-file mtime chain) ----
_C14_ONLY = [r"^(?!.*(mtime|clamp0|needs\()).*$"]
PROPS["C14"] = dict(
    level="proof",
    units=[dict(template="units/oneway.rs", slice=["deliver_local", "deliver_pull", "set_local_mtime", "lemma_delivered_is_skipped"],
                ignore_clauses={"deliver_local": [r"delivery_log", r"delivered_or_untouched", r"same_except", r"is_staging", r"\.whole"], "deliver_pull": [r"delivery_log", r"delivered_or_untouched", r"same_except", r"is_staging", r"\.whole"]}),
           dict(template="units/plan.rs", slice=["needs_transfer", "build_plan"], ignore_clauses={"build_plan": [r"with_delete", r"plan\.delete", r"sorted\("]})],
    kani=[dict(harness="c19_needs_transfer_is_quick_check", repo_fn="src/bin/copia/plan.rs needs_transfer", desc="needs_transfer(src, dst) == (dst absent or size differs or whole-second mtime differs), all inputs")],
    twins=[dict(name="second_run_noop", repo_fn="src/bin/copia/incremental.rs run_local/run_remote (second run)", quick=1, thorough=1, needs_cli=True,
                contract="`copia sync -r` on the real binary in all three directions (ssh stand-in), source mtimes with a sub-second part, the epoch itself and a far-future value: after the first run every destination file has the source's whole-second mtime; the same command again exits 0, plans nothing, and changes no byte and no mtime on either side",
                bounded="the two-run statement, the push direction (remote `touch -d @t`) and the remote listing (`find -printf %T@`) have no contract: this run stands in. Bound: one 8-file tree per direction (incl. names ending in white space), five mtime shapes"),
           dict(name="parse_remote_meta_output", repo_fn="src/bin/copia/meta.rs parse_remote_meta_output", quick=2, thorough=60,
                contract="the remote listing parser returns, for every well-formed `size TAB mtime[.frac] TAB ./path NUL` record, exactly (path, size, whole-second mtime) - checked against an independent reference on generated listings")],
    fallback_searches=["second_run"],
    clauses={
        "needs_transfer / build_plan (unit plan, Kani)": "a file is planned for transfer exactly when it is not excluded and is absent from the destination or differs in size or whole-second mtime (the property's second sentence; shared with C19)",
        "set_local_mtime": "on success the file's whole-second mtime is max(secs, 0) - in particular 0 for the epoch itself - and no byte of any file changes; it succeeds when the file exists and no I/O fault occurs",
        "deliver_local / deliver_pull": "Ok and no I/O fault ==> the delivered file's whole-second mtime is max(planned mtime, 0): set_local_mtime is called on dst AFTER the rename with the planned value",
        "lemma_delivered_is_skipped": "a destination file with the source's bytes and the planned (non-negative) mtime is NOT selected by the quick check: the next run skips it",
    },
    trusted=ONEWAY_TRUST + [
        "meta::set_local_mtime is PROVED to stamp epoch + max(secs, 0) seconds (R5 shims for UNIX_EPOCH + Duration::from_secs, i64::max, u64::try_from, and File::options().write(true).open(p)?.set_modified(t)); meta::mtime_secs (what the next scan reads back: whole seconds, the file system's timestamp granularity) is by contract",
        "discover_local_with_meta / discover_remote_with_meta by contract (size and whole-second mtime of each file)",
    ],
    assumptions=["no I/O fault while setting the mtime (its result is ignored by the code: `let _ =`)", "mtimes at or after the epoch"],
    not_decided=["'immediately after a successful sync the same command transfers nothing' is a two-run statement over run_local/run_remote (tokio orchestration, not under contract): per file it follows from the three clauses above; end to end only the bounded twin",
                 "push: the remote `touch -d @t` and `find -printf %T@` round trip is shell, not Rust: twin only"],
)


# ---- C04: a recursive one-way sync delivers exactly its plan ----
RUNSYNC_TRUST = [
    "ORCHESTRATION REGION SUMMARY (ASSUMED): in run_local / run_remote the statements from `let semaphore = Arc::new(Semaphore::new(..))` to `join_handles(handles).await` (tokio::spawn of one async block per planned file) are replaced by ONE call of run_deliveries_local / run_deliveries_remote, whose contract states what every interleaving of the spawned calls satisfies by the PROVED contracts of deliver_local / deliver_pull (each new local effect is a delivery effect of one planned path; no path other than <dst>/<rel> and its staging sibling changes) and, for push, that each task sends ONE remote delivery command for <remote_root>/<rel> and has no local effect. That tokio runs each spawned task once and nothing else in the region touches either side is trusted; a change INSIDE the region is not seen by Verus (the bounded runs and the crash oracle see it)",
    "the tree scans by contract: discover_local_with_meta(root) / discover_remote_with_meta(host, root) are read-only and are functions of (tree, root) resp. (host, root) - total or failing; nothing about their content is assumed (the plan is defined over whatever they returned). The remote listing command is read-only and therefore not an entry of the remote command log",
    "collect_dirs, report (prints), TransferProgress (opaque), Instant::now (R5 shim instant_now), Result::unwrap_or_default on a MetaMap (R5 shim meta_or_empty), `x.display().to_string()` => opaque text: no file-system access (ASSUMED)",
    "remote command log extended by the variant Deliver{host, path}: one `cat > tmp && [ size ] && mv` command of transfer_file_to_remote (the shell itself has no contract: C09's push clause is decided by the crash oracle)",
]
_RS_C15 = {"run_local": [r"planned_eff", r"planned_path", r"planned_cmd", r"^\s*log_extends", r"^\s*dir is P", r"want_delete\("], "run_remote": [r"planned_eff", r"planned_path", r"planned_cmd", r"^\s*log_extends", r"^\s*dir is P", r"want_delete\("]}
_RS_C19 = {"run_local": [r"opts\.dry_run ==>", r"!opts\.delete ==>", r"planned_path"], "run_remote": [r"opts\.dry_run ==>", r"!opts\.delete ==>", r"^\s*dir is P"]}
_RS_C04 = {"run_local": [r"opts\.dry_run ==>", r"!opts\.delete ==>"], "run_remote": [r"opts\.dry_run ==>", r"!opts\.delete ==>"]}

PROPS["C04"] = dict(
    level="proof",
    units=[dict(template="units/planrun.rs", slice=["*"]),
           dict(template="units/plan.rs", slice=["build_plan", "needs_transfer", "is_excluded", "glob_match"]),
           dict(template="units/oneway.rs", slice=["deliver_local", "deliver_pull", "tmp_path", "create_local_dirs", "set_local_mtime"]),
           dict(template="units/runsync.rs", slice=["run_local", "run_remote"], ignore_clauses=_RS_C04)],
    kani=[dict(harness="c19_needs_transfer_is_quick_check", repo_fn="src/bin/copia/plan.rs needs_transfer", desc="needs_transfer(src, dst) == (dst absent or size differs or whole-second mtime differs), all inputs")],
    twins=[dict(name="delivers_plan", repo_fn="src/bin/copia/incremental.rs run_local/run_remote (whole run)", quick=1, thorough=1, needs_cli=True,
                contract="`copia sync -r` on the real binary, three directions (ssh stand-in) x five flag sets ({}, --delete, --delete --exclude '*.log', --exclude 'sub dir', --delete -j 4), one tree of 15 awkward names (spaces, both quotes, backslash, $, glob characters, leading dash, unicode, NEWLINES in a file name, a directory name and a stale name, nesting, dot file) in the four destination states {absent, same size+mtime, other size, other mtime} plus four destination-only files: exit 0; the destination equals the plan of the property statement (planned files byte-identical with the source's whole-second mtime, matched files left exactly as they were, with --delete exactly the non-excluded destination-only files removed); the source is unmodified; no staging file remains; two bystander files in the (remote) working directory are untouched",
                bounded="the end-to-end statement is about run_local/run_remote (tokio::spawn, Semaphore, ssh children) and remote shell commands, which have no contract; this run stands in. Bound: ONE tree (15 + 4 files), 5 flag sets, 3 directions, -j 2 and 4; remote = local sh through an ssh stand-in"),
           dict(name="parse_remote_meta_output", repo_fn="src/bin/copia/meta.rs parse_remote_meta_output", quick=2, thorough=60,
                contract="the remote listing parser returns, for every well-formed `size TAB mtime[.frac] TAB ./path NUL` record, exactly (path, size, whole-second mtime) - checked against an independent reference on generated listings, fractions at the edges of a second included")],
    fallback_searches=["delivers_plan"],
    clauses={
        "build_plan / needs_transfer / is_excluded / glob_match": "the plan: transfer = sorted non-excluded source paths absent from the destination or differing in size or whole-second mtime; delete = [] without the flag, else the sorted non-excluded destination paths absent from the source (shared with C19/C15)",
        "deliver_local / deliver_pull": "one delivery changes only its destination path and the staging sibling; Ok ==> dst holds the source bytes and the planned mtime (shared with C09/C14)",
        "apply_remote_deletes": "pull: the only effects are Unlink(local_root/rel) for rel in the delete list, nothing else changes, no remote command; push: exactly ONE remote command, whose argument list - as xargs cuts it at the delimiter its command names - is exactly [remote_root/rel | rel in the delete list] (no entry can be split: the delimiter is NUL and no name contains NUL)",
        "create_remote_dirs": "at most ONE remote command; it creates exactly remote_root and remote_root/dir for the planned directories",
        "run_local / run_remote (the driver)": "every local effect of a run is a directory creation, a delivery effect (write staging / rename staging -> dst / touch dst) of a path p with want_transfer(p), or - only with --delete - Unlink(<dst>/p) with want_delete(p); every mutating remote command is a Mkdir, ONE delivery of <remote_root>/p with want_transfer(p), or - only with --delete - ONE Rm whose arguments are <remote_root>/p for want_delete(p); want_transfer / want_delete are the property's set definitions over the two listings (build_plan's proved contract links the plan to them); push has no local effect, pull sends no mutating command; a path that belongs to no planned action is unchanged (frame, local runs)",
    },
    trusted=ONEWAY_TRUST + RUNSYNC_TRUST + [
        "the remote shell is not Rust: ASSUMED only that xargs cuts its input at the delimiter named on its command line and that `rm -f --` / `mkdir -p` act on exactly those arguments (R5 shim ssh_xargs; the delimiter and verb are read off the command string literal by the replacement rule)",
        "R3' shims first_entry / push_list_entry for format!/write! as concatenation; display(p) contains no NUL byte (OS rule)",
        "PATH_TRUST: std::path component grammar for is_excluded (validated by its twin under C15/C19)",
    ],
    assumptions=["remote_root (a command-line argument) contains neither NUL nor newline", "mtimes at or after the epoch; names ending in .copia-tmp are reserved"],
    not_decided=["inside the orchestration region of run_local / run_remote (task spawning, job count, completion order) nothing is proved - it is summarised by an assumed contract; that every planned file IS delivered (liveness of the spawned tasks, the report) END TO END is exercised by the bounded twin only",
                 "transfer_file_to_remote / transfer_file_from_remote command strings ($'..' quoting of awkward names): twin only",
                 "host:path parsing in main.rs is not under contract"],
)


# ---- the recursive one-way driver (unit runsync): C15 dry run / no removal without --delete; C04 + C09 'nothing outside the plan' ----
PROPS["C15"]["units"].append(dict(template="units/runsync.rs", slice=["run_local", "run_remote", "print_plan"], ignore_clauses=_RS_C15))
PROPS["C15"]["clauses"]["sync -r --dry-run (run_local, run_remote)"] = "opts.dry_run ==> no file-system effect at all (files and effect log unchanged) and no mutating remote command - local, pull and push; print_plan (extracted) has no access to either"
PROPS["C15"]["clauses"]["no removal without --delete (run_local, run_remote)"] = "!opts.delete ==> no Unlink among the run's local effects and no Rm among its remote commands"
PROPS["C15"]["trusted"] = PROPS["C15"]["trusted"] + ONEWAY_TRUST + RUNSYNC_TRUST
PROPS["C15"]["fallback_searches"].append("run_local")
PROPS["C09"]["units"].append(dict(template="units/runsync.rs", slice=["run_local", "run_remote"], ignore_clauses=_RS_C04))
PROPS["C09"]["clauses"]["run_local / run_remote: files outside the plan"] = "every local effect of the whole run is a directory creation, a delivery effect of a planned path or (with --delete) the unlink of a planned path; a path that belongs to no planned action is unchanged; push has no local effect (modulo the assumed summary of the orchestration region)"
PROPS["C09"]["trusted"] = ONEWAY_TRUST + RUNSYNC_TRUST


# ---- command-line targets (unit targets): which arguments are remote, and where they are cut ----
TARGET_TRUST = [
    "a &str seen through its bytes (sb): R5 shims whose body is the replaced expression - str_find / str_rfind (byte offset of the first / last occurrence of an ASCII byte), str_to / str_from (slicing next to an ASCII byte), str_has, str_is_empty, str_blen, str_owned (to_string keeps the bytes), pathbuf_of (PathBuf::from keeps the bytes); a string is at most isize::MAX bytes long",
]
PROPS["C13"]["units"].append(dict(template="units/targets.rs", slice=["split_target"]))
PROPS["C13"]["clauses"]["split_target"] = "Some((host, root)) ==> TARGET == host ++ ':' ++ root cut at its FIRST colon (later colons belong to the root), host non-empty and without '/'; None ==> no such cut exists (no colon, or the text before the first colon is empty or contains '/')"
PROPS["C13"]["trusted"] = PROPS["C13"]["trusted"] + TARGET_TRUST
PROPS["C13"]["not_decided"] = [x for x in PROPS["C13"]["not_decided"] if "split_target itself is not under contract" not in x and "split_target (host:root parsing) are not under contract" not in x] + ["HubClient::connect / bye (process spawning) are not under contract; `host:root` targets are also exercised by the run twin through an ssh stand-in (incl. roots containing a colon)"]
PROPS["C04"]["units"].append(dict(template="units/targets.rs", slice=["FileLocation::parse"]))
PROPS["C04"]["clauses"]["FileLocation::parse (sync SRC DST arguments)"] = "Remote{host, path} ==> ARG == host ++ ':' ++ path cut at its FIRST colon, host longer than one byte (the code's drive-letter rule) and without '/' or '\\'; Local(p) ==> p is the whole argument, byte for byte, and no such cut exists"
PROPS["C04"]["trusted"] = PROPS["C04"]["trusted"] + TARGET_TRUST
PROPS["C04"]["not_decided"] = [x for x in PROPS["C04"]["not_decided"] if "host:path parsing in main.rs" not in x]


# ---- C06: the conflict-copy suffix (short_hex is a private fn of bidir.rs: text extracted mechanically for Kani) ----
PROPS["C06"]["kani"] = [dict(harness="c06_short_hex_is_hex12", repo_fn="src/bin/copia/bidir.rs short_hex", tier="thorough", timeout=3000,
    desc="forall 32-byte digests: short_hex(h) is exactly 12 bytes, the lower-case hex digits of h[0..6] in order, leading zeros kept (complete: full-domain symbolic digest, the 6 iterations unwound with unwinding assertions; ~10 min of CBMC, hence thorough tier only). The function text is copied byte for byte from the tree on every run (kani/extracted.tmpl.rs), because a private function of a binary module cannot be reached through #[path]")]
PROPS["C06"]["clauses"]["short_hex (Kani, thorough tier)"] = "the <hex12> of `<path>.conflict-<host>-<hex12>` is the first 12 lower-case hex digits of the losing version's BLAKE3, for every digest"


# ---- round 4: the drivers also serve C19 (the plan over BOTH listings is what a run carries out), sync_files serves C16 ----
PROPS["C19"]["units"].append(dict(template="units/runsync.rs", slice=["run_local", "run_remote"], ignore_clauses=_RS_C19))
PROPS["C19"]["clauses"]["run_local / run_remote: the plan is the one over both listings"] = "every effect of a run belongs to want_transfer / want_delete computed over the source listing AND the destination listing as scanned (an emptied source does not skip the destination scan); with --delete a successful real run leaves no want_delete path (local, pull) resp. sends the ONE removal command for exactly that set (push)"
PROPS["C19"]["trusted"] = PROPS["C19"]["trusted"] + ONEWAY_TRUST + RUNSYNC_TRUST
PROPS["C19"]["twins"] = PROPS["C19"].get("twins", []) + [dict(name="dry_run_inert", repo_fn="src/bin/copia/incremental.rs run_local / run_remote with --dry-run", quick=1, thorough=1, needs_cli=True,
    contract="the plan `sync -r --dry-run` prints is the property's plan: 30 real runs (3 directions x the C04 tree with 5 flag sets, an EMPTY source with 3 flag sets, a file-vs-directory tree with 2)")]
PROPS["C04"]["clauses"]["--delete is carried out (run_local, run_remote)"] = "Ok && no I/O fault && --delete && real run ==> no path with want_delete is left (local, pull); push: the ONE `rm` command for exactly that set was sent - whatever the source listing is (an EMPTY source deletes everything not excluded)"
PROPS["C16"]["units"].append(dict(template="units/singlesync.rs", slice=["AsyncCopiaSync::sync_files"], ignore_clauses={"sync_files": [r"final\(w\)\.files\[aspr", r"source_size"]}))
PROPS["C16"]["clauses"]["AsyncCopiaSync::sync_files (single-file `sync`)"] = "under collision_free() and without an I/O fault: destination present and different ==> bytes_literal == g_lit(source, destination, self's block size, 0): the REQUESTED block size is the one used"
PROPS["C16"]["trusted"] = PROPS["C16"]["trusted"] + SINGLE_TRUST
PROPS["C16"]["twins"].append(dict(name="greedy_pairs", repo_fn="src/sync.rs CopiaSync::delta, src/async_sync.rs AsyncCopiaSync::{delta, sync_files}", quick=3, thorough=60,
    contract="on generated (basis, source) pairs at every block size, incl. 44 insert lengths up to 11 KB: literal bytes of CopiaSync::delta, AsyncCopiaSync::delta and AsyncCopiaSync::with_block_size(bs).sync_files <= the textbook greedy scan AT THAT BLOCK SIZE"))
for f in ("sync_files",):
    PROPS["C01"]["units"][1].setdefault("ignore_clauses", {})[f] = [r"g_lit\("]
# C18: the glue that feeds reconcile (tree scans) must hand it content fingerprints - exercised by the bisync histories
PROPS["C18"]["twins"] = PROPS["C18"].get("twins", []) + [dict(BISYNC_TWIN, only_re=r"\(C18\)")]
PROPS["C18"].setdefault("not_decided", []).append("that the tree scans in front of reconcile (discover_local_fingerprints) report content fingerprints, independent of size and mtime, is by contract in unit bisync; on the real binary it is exercised by the history twin (two histories with equal sizes and equal old mtimes)")


# ---- round 5: the tree-level reconcile (sorted, duplicate-free union of paths) is a callee the bisync properties depend on ----
for _p in ("C02", "C06"):
    PROPS[_p]["units"].append(dict(template="units/reconcile.rs", slice=["reconcile"]))
    PROPS[_p]["clauses"]["reconcile (tree level)"] = "exactly one non-trivial table decision per path of the union of the three listings, in path order: no path twice (a BothChanged conflict applied twice overwrites the preserved loser), none dropped (proved in unit reconcile; shared with C18)"


# ---- round 6 ----
PROPS["C04"]["twins"].append(dict(name="is_excluded", repo_fn="src/bin/copia/plan.rs is_excluded", quick=3, thorough=60,
    contract="is_excluded against the reference exclude rule, incl. names and patterns with 2-, 3- and 4-byte characters (`?` is one CHARACTER)"))
PROPS["C04"]["fallback_searches"] += ["is_excluded", "glob_match"]
PROPS["C15"]["twins"].append(dict(BISYNC_TWIN, only_re=r"\(C15\)"))
PROPS["C15"]["twins"].append(dict(name="delivers_plan", repo_fn="src/bin/copia/incremental.rs run_local/run_remote (whole REAL run)", quick=1, thorough=1, needs_cli=True, only_re=r"\(C15\)",
    contract="real (not dry) `copia sync -r` runs of the C04 oracle, three directions x six flag sets plus the empty-source and file-vs-directory trees (incl. --delete with an EXCLUDED file inside the directory that is in the way): however the run ends, a destination path the patterns exclude is exactly as it was, and without --delete no destination-only path is gone",
    bounded="whole runs of the real binary have no contract (spawned tasks, ssh children): bounded stand-in. Bound: the C04 trees, 6 flag sets, 3 directions"))
