#!/bin/bash
# baseline.sh [REPO_DIR] — run the repository's pinned test suite (guard OFF; there are no hooks) and
# compare against /root/.vp/BASELINE.json stable_pass. Exit 0 iff all stable tests pass.
REPO=${1:-/repo}
export CARGO_TARGET_DIR=${CARGO_TARGET_DIR:-$REPO/target}
cd "$REPO" || exit 2
rm -f "$REPO/target/nextest/pb/junit.xml" "$CARGO_TARGET_DIR/nextest/pb/junit.xml"
cargo nextest run --workspace --no-fail-fast --tool-config-file pb:/w/lib/nextest.toml --profile pb --test-threads 8 --offline > /dev/null 2>&1
J="$REPO/target/nextest/pb/junit.xml"; [ -f "$J" ] || J="$CARGO_TARGET_DIR/nextest/pb/junit.xml"
python3 - "$J" <<'PY'
import json,sys
import xml.etree.ElementTree as ET
base=json.load(open('/root/.vp/BASELINE.json'))
try: root=ET.parse(sys.argv[1]).getroot()
except Exception as e:
    print("baseline: no junit report (build failed?):",e); sys.exit(1)
ok=set()
for ts in root.iter('testsuite'):
    for tc in ts.iter('testcase'):
        if tc.find('failure') is None and tc.find('error') is None and tc.find('skipped') is None:
            ok.add(ts.get('name')+'::'+tc.get('name'))
missing=[s for s in base['stable_pass'] if s not in ok]
print("baseline: %d/%d stable tests pass"%(len(base['stable_pass'])-len(missing),len(base['stable_pass'])))
for m in missing[:20]: print("  NOT PASSING:",m)
sys.exit(0 if not missing else 1)
PY
