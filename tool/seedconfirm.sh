#!/bin/bash
# seedconfirm.sh <seed-dir> : confirm a seeded change in a scratch worktree of /repo HEAD:
#   demo passes on the unchanged tree, fails with the patch; the patched tree builds and passes the 254 baseline tests.
# Writes <seed-dir>/confirm.json. Removes the worktree and its build output.
S=$(readlink -f "$1"); ID=$(basename "$S"); WT=/tmp/sc-$ID
git -C /repo worktree remove --force $WT 2>/dev/null; rm -rf $WT
git -C /repo worktree add -q $WT HEAD || exit 2
cd $WT
R_APPLY=0; git apply --check "$S/patch.diff" 2>/dev/null || R_APPLY=1
if [ $R_APPLY = 1 ]; then echo "{\"id\":\"$ID\",\"applies\":false}" > "$S/confirm.json"; git -C /repo worktree remove --force $WT; exit 1; fi
bash "$S/demo.sh" $WT > /tmp/sc-$ID.clean.log 2>&1; D0=$?
git apply "$S/patch.diff"
bash "$S/demo.sh" $WT > /tmp/sc-$ID.patched.log 2>&1; D1=$?
git status --short | grep -v '^ M' > /tmp/sc-$ID.extra 
CARGO_TARGET_DIR=$WT/target /verif/tool/baseline.sh $WT > /tmp/sc-$ID.base.log 2>&1; B=$?
CARGO_TARGET_DIR=$WT/target cargo build --offline --features cli > /tmp/sc-$ID.build.log 2>&1; C=$?
echo "{\"id\":\"$ID\",\"applies\":true,\"demo_on_clean_exit\":$D0,\"demo_on_patched_exit\":$D1,\"baseline_with_patch\":\"$(tail -1 /tmp/sc-$ID.base.log | tr -d '\n')\",\"baseline_exit\":$B,\"cli_build_exit\":$C,\"repo_head\":\"$(git -C /repo rev-parse --short HEAD)\"}" > "$S/confirm.json"
cat "$S/confirm.json"
cd /; git -C /repo worktree remove --force $WT; rm -rf $WT /tmp/sc-$ID.*.log /tmp/sc-$ID.extra
